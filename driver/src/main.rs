// mirfacts: a rustc_private driver that dumps the type-checked program (MIR with resolved
// callees, ADT definitions, evaluated constants) of the crate being compiled as one JSON
// file.  Used as RUSTC_WORKSPACE_WRAPPER by /verif/check.  Nothing here executes library
// code: constants are read after rustc's own const evaluation.
#![feature(rustc_private)]
#![allow(clippy::all)]

extern crate rustc_abi;
extern crate rustc_driver;
extern crate rustc_hir;
extern crate rustc_interface;
extern crate rustc_middle;
extern crate rustc_span;

use rustc_abi::{FieldsShape, Size, Variants};
use rustc_driver::{run_compiler, Callbacks, Compilation};
use rustc_hir::def::DefKind;
use rustc_hir::def_id::{DefId, LocalDefId};
use rustc_interface::interface::Compiler;
use rustc_middle::mir::interpret::{AllocId, ConstAllocation, GlobalAlloc, Scalar};
use rustc_middle::mir::{
    AggregateKind, BinOp, Body, BorrowKind, CastKind, Const, ConstValue, Operand, Place,
    ProjectionElem, Rvalue, StatementKind, TerminatorKind, UnOp, VarDebugInfoContents,
};
use rustc_middle::ty::print::{with_no_trimmed_paths, with_no_visible_paths, with_resolve_crate_name, PrintTraitRefExt};
use rustc_middle::ty::{self, GenericArgsRef, Instance, Ty, TyCtxt, TypingEnv};
use rustc_span::Span;
use std::fmt::Write as _;

// ---------------------------------------------------------------- JSON
enum J {
    Null,
    Bool(bool),
    Num(String),
    Str(String),
    Arr(Vec<J>),
    Obj(Vec<(&'static str, J)>),
}
fn s<T: Into<String>>(x: T) -> J {
    J::Str(x.into())
}
fn n<T: std::fmt::Display>(x: T) -> J {
    J::Num(format!("{}", x))
}
impl J {
    fn write(&self, out: &mut String) {
        match self {
            J::Null => out.push_str("null"),
            J::Bool(b) => out.push_str(if *b { "true" } else { "false" }),
            J::Num(x) => out.push_str(x),
            J::Str(x) => {
                out.push('"');
                for c in x.chars() {
                    match c {
                        '"' => out.push_str("\\\""),
                        '\\' => out.push_str("\\\\"),
                        '\n' => out.push_str("\\n"),
                        '\r' => out.push_str("\\r"),
                        '\t' => out.push_str("\\t"),
                        c if (c as u32) < 0x20 => {
                            let _ = write!(out, "\\u{:04x}", c as u32);
                        }
                        c => out.push(c),
                    }
                }
                out.push('"');
            }
            J::Arr(v) => {
                out.push('[');
                for (i, x) in v.iter().enumerate() {
                    if i > 0 {
                        out.push(',');
                    }
                    x.write(out);
                }
                out.push(']');
            }
            J::Obj(v) => {
                out.push('{');
                for (i, (k, x)) in v.iter().enumerate() {
                    if i > 0 {
                        out.push(',');
                    }
                    out.push('"');
                    out.push_str(k);
                    out.push_str("\":");
                    x.write(out);
                }
                out.push('}');
            }
        }
    }
}

// ---------------------------------------------------------------- naming
fn qpath<'tcx>(tcx: TyCtxt<'tcx>, def_id: DefId) -> String {
    let key = tcx.def_key(def_id);
    match key.parent {
        None => tcx.crate_name(def_id.krate).to_string(),
        Some(pidx) => {
            let parent = DefId { index: pidx, krate: def_id.krate };
            if matches!(tcx.def_kind(def_id), DefKind::Impl { .. }) {
                let self_ty = tcx.type_of(def_id).instantiate_identity().skip_norm_wip();
                match tcx.impl_opt_trait_ref(def_id) {
                    Some(tr) => {
                        let tr = tr.instantiate_identity().skip_norm_wip();
                        format!("<{} as {}>", self_ty, tr.print_only_trait_path())
                    }
                    None => format!("{}", self_ty),
                }
            } else {
                format!("{}::{}", qpath(tcx, parent), key.disambiguated_data.as_sym(false))
            }
        }
    }
}

fn tystr<'tcx>(ty: Ty<'tcx>) -> String {
    format!("{}", ty)
}

struct Cx<'tcx> {
    tcx: TyCtxt<'tcx>,
}

impl<'tcx> Cx<'tcx> {
    fn span(&self, sp: Span) -> J {
        let sm = self.tcx.sess.source_map();
        let lo = sm.lookup_char_pos(sp.lo());
        let hi = sm.lookup_char_pos(sp.hi());
        let file = match &lo.file.name {
            rustc_span::FileName::Real(r) => match r.local_path() {
                Some(p) => p.display().to_string(),
                None => format!("{:?}", r),
            },
            other => format!("{:?}", other),
        };
        J::Obj(vec![
            ("file", s(file)),
            ("line", n(lo.line)),
            ("hi", n(hi.line)),
            ("exp", J::Bool(sp.from_expansion())),
        ])
    }

    fn generic_args(&self, args: GenericArgsRef<'tcx>) -> J {
        J::Arr(args.iter().map(|a| s(format!("{}", a))).collect())
    }

    fn fn_ref(&self, env: TypingEnv<'tcx>, def_id: DefId, args: GenericArgsRef<'tcx>) -> J {
        let tcx = self.tcx;
        let mut o = vec![
            ("fn", s(qpath(tcx, def_id))),
            ("targs", self.generic_args(args)),
            ("local", J::Bool(def_id.is_local())),
            ("krate", s(tcx.crate_name(def_id.krate).to_string())),
        ];
        let res = std::panic::catch_unwind(std::panic::AssertUnwindSafe(|| {
            Instance::try_resolve(tcx, env, def_id, args)
        }));
        if let Ok(Ok(Some(inst))) = res {
            let rid = inst.def_id();
            o.push(("res", s(qpath(tcx, rid))));
            o.push(("rargs", self.generic_args(inst.args)));
            o.push(("rlocal", J::Bool(rid.is_local())));
            o.push(("rkrate", s(tcx.crate_name(rid.krate).to_string())));
            o.push(("rkind", s(format!("{:?}", std::mem::discriminant(&inst.def)).to_string())));
            let k = match inst.def {
                ty::InstanceKind::Item(_) => "item",
                ty::InstanceKind::Intrinsic(_) => "intrinsic",
                ty::InstanceKind::Virtual(..) => "virtual",
                ty::InstanceKind::FnPtrShim(..) => "fnptrshim",
                ty::InstanceKind::ClosureOnceShim { .. } => "closureonceshim",
                ty::InstanceKind::CloneShim(..) => "cloneshim",
                ty::InstanceKind::DropGlue(..) => "dropglue",
                _ => "other",
            };
            o.push(("ikind", s(k)));
        } else {
            o.push(("res", J::Null));
        }
        J::Obj(o)
    }

    fn scalar_int(&self, sc: Scalar, ty: Ty<'tcx>) -> Option<J> {
        match sc {
            Scalar::Int(i) => {
                let size = i.size();
                if size.bytes() == 0 {
                    return Some(n(0));
                }
                let bits = i.to_bits(size);
                let v = match ty.kind() {
                    ty::Int(_) => {
                        let sh = 128 - size.bits();
                        let sv = ((bits << sh) as i128) >> sh;
                        format!("{}", sv)
                    }
                    _ => format!("{}", bits),
                };
                Some(J::Num(v))
            }
            _ => None,
        }
    }

    fn konst(&self, env: TypingEnv<'tcx>, c: &Const<'tcx>, span: Span) -> J {
        let tcx = self.tcx;
        let ty = c.ty();
        let mut o: Vec<(&'static str, J)> = vec![("k", s("const")), ("ty", s(tystr(ty)))];
        if let ty::FnDef(def_id, args) = ty.kind() {
            o.push(("fnref", self.fn_ref(env, *def_id, args)));
            return J::Obj(o);
        }
        if let ty::Closure(def_id, _) = ty.kind() {
            o.push(("closure", s(qpath(tcx, *def_id))));
            return J::Obj(o);
        }
        match c {
            Const::Val(cv, _) => self.const_value(&mut o, *cv, ty, false),
            Const::Unevaluated(uv, _) => {
                o.push(("item", s(qpath(tcx, uv.def))));
                o.push(("iargs", self.generic_args(uv.args)));
                if let Some(p) = uv.promoted {
                    o.push(("promoted", n(p.as_usize())));
                }
                // try to evaluate when not generic
                let needs = uv.args.iter().any(|a| format!("{:?}", a).contains("/#"));
                if !needs {
                    let r = std::panic::catch_unwind(std::panic::AssertUnwindSafe(|| {
                        tcx.const_eval_resolve(env, *uv, span)
                    }));
                    if let Ok(Ok(cv)) = r {
                        self.const_value(&mut o, cv, ty, false);
                    }
                }
            }
            Const::Ty(_, ct) => {
                o.push(("tyconst", s(format!("{}", ct))));
                if let Some(v) = ct.try_to_scalar() {
                    if let Some(j) = self.scalar_int(v, ty) {
                        o.push(("v", j));
                    }
                }
            }
        }
        J::Obj(o)
    }

    fn const_value(&self, o: &mut Vec<(&'static str, J)>, cv: ConstValue, ty: Ty<'tcx>, deep: bool) {
        let tcx = self.tcx;
        if !deep {
            // in operand position only small values are decoded (big tables are in `consts`)
            let small = match cv {
                ConstValue::Scalar(Scalar::Int(_)) | ConstValue::ZeroSized | ConstValue::Slice { .. } => true,
                ConstValue::Scalar(Scalar::Ptr(..)) => match ty.kind() {
                    ty::Ref(_, inner, _) => tcx
                        .layout_of(TypingEnv::fully_monomorphized().as_query_input(*inner))
                        .map(|l| l.size.bytes() <= 256)
                        .unwrap_or(false),
                    _ => false,
                },
                ConstValue::Indirect { .. } => tcx
                    .layout_of(TypingEnv::fully_monomorphized().as_query_input(ty))
                    .map(|l| l.size.bytes() <= 256)
                    .unwrap_or(false),
            };
            if !small {
                return;
            }
        }
        match cv {
            ConstValue::Scalar(sc) => {
                if let Some(j) = self.scalar_int(sc, ty) {
                    o.push(("v", j));
                } else if let Scalar::Ptr(ptr, _) = sc {
                    let (prov, off) = ptr.prov_and_relative_offset();
                    if let Some(j) = self.decode_ptr(ty, prov.alloc_id(), off) {
                        o.push(("dec", j));
                    }
                }
            }
            ConstValue::ZeroSized => {
                o.push(("zst", J::Bool(true)));
            }
            ConstValue::Slice { alloc_id, meta } => {
                if let GlobalAlloc::Memory(alloc) = tcx.global_alloc(alloc_id) {
                    let a = alloc.inner();
                    let bytes = a.inspect_with_uninit_and_ptr_outside_interpreter(0..(meta as usize).min(a.len()));
                    if let ty::Ref(_, inner, _) = ty.kind() {
                        if inner.is_str() {
                            o.push(("str", s(String::from_utf8_lossy(bytes).to_string())));
                            return;
                        }
                    }
                    o.push(("bytes", J::Arr(bytes.iter().map(|b| n(*b)).collect())));
                }
            }
            ConstValue::Indirect { alloc_id, offset } => {
                if let GlobalAlloc::Memory(alloc) = tcx.global_alloc(alloc_id) {
                    let mut depth = 0;
                    if let Some(j) = self.decode(ty, alloc, offset, &mut depth) {
                        o.push(("dec", j));
                    }
                }
            }
        }
    }

    fn decode_ptr(&self, ptr_ty: Ty<'tcx>, alloc_id: AllocId, off: Size) -> Option<J> {
        let inner = match ptr_ty.kind() {
            ty::Ref(_, inner, _) => *inner,
            ty::RawPtr(inner, _) => *inner,
            _ => return None,
        };
        match self.tcx.global_alloc(alloc_id) {
            GlobalAlloc::Memory(alloc) => {
                let mut depth = 0;
                self.decode(inner, alloc, off, &mut depth)
            }
            _ => None,
        }
    }

    // Decode the value of type `ty` stored at `off` in `alloc` into JSON.
    fn decode(&self, ty: Ty<'tcx>, alloc: ConstAllocation<'tcx>, off: Size, depth: &mut usize) -> Option<J> {
        let tcx = self.tcx;
        *depth += 1;
        if *depth > 4_000_000 {
            return None;
        }
        let env = TypingEnv::fully_monomorphized();
        let layout = tcx.layout_of(env.as_query_input(ty)).ok()?;
        let a = alloc.inner();
        let size = layout.size;
        let read_uint = |off: Size, sz: Size| -> Option<u128> {
            let lo = off.bytes() as usize;
            let hi = lo + sz.bytes() as usize;
            if hi > a.len() {
                return None;
            }
            let b = a.inspect_with_uninit_and_ptr_outside_interpreter(lo..hi);
            let mut v: u128 = 0;
            for (i, x) in b.iter().enumerate() {
                v |= (*x as u128) << (8 * i);
            }
            Some(v)
        };
        match ty.kind() {
            ty::Bool | ty::Char | ty::Uint(_) => Some(n(read_uint(off, size)?)),
            ty::Int(_) => {
                let v = read_uint(off, size)?;
                let sh = 128 - size.bits();
                Some(n(((v << sh) as i128) >> sh))
            }
            ty::Array(elem, _) => {
                let cnt = match &layout.fields {
                    FieldsShape::Array { count, .. } => *count,
                    _ => return None,
                };
                let stride = match &layout.fields {
                    FieldsShape::Array { stride, .. } => *stride,
                    _ => return None,
                };
                let mut v = Vec::with_capacity(cnt as usize);
                for i in 0..cnt {
                    v.push(self.decode(*elem, alloc, off + stride * i, depth)?);
                }
                Some(J::Arr(v))
            }
            ty::Tuple(tys) => {
                let mut v = Vec::new();
                for (i, t) in tys.iter().enumerate() {
                    v.push(self.decode(t, alloc, off + layout.fields.offset(i), depth)?);
                }
                Some(J::Arr(v))
            }
            ty::Adt(adt, args) if adt.is_struct() => {
                let mut fields: Vec<J> = Vec::new();
                for (i, f) in adt.non_enum_variant().fields.iter().enumerate() {
                    let fty = f.ty(tcx, args);
                    let v = self.decode(fty, alloc, off + layout.fields.offset(i), depth)?;
                    fields.push(J::Arr(vec![s(f.name.to_string()), v]));
                }
                Some(J::Obj(vec![("struct", s(tystr(ty))), ("fields", J::Arr(fields))]))
            }
            ty::Adt(adt, _) if adt.is_enum() => {
                // fieldless enums with a direct tag only
                match &layout.variants {
                    Variants::Multiple { tag, tag_field, .. } if adt.is_payloadfree() => {
                        let tsz = tag.size(&tcx);
                        let toff = layout.fields.offset(tag_field.as_usize());
                        let v = read_uint(off + toff, tsz)?;
                        let mut name = None;
                        for (vi, d) in adt.discriminants(tcx) {
                            if d.val == v {
                                name = Some(adt.variant(vi).name.to_string());
                            }
                        }
                        Some(J::Obj(vec![("enum", s(tystr(ty))), ("discr", n(v)), ("variant", name.map(s).unwrap_or(J::Null))]))
                    }
                    Variants::Single { index } => Some(J::Obj(vec![
                        ("enum", s(tystr(ty))),
                        ("variant", s(adt.variant(*index).name.to_string())),
                    ])),
                    Variants::Multiple { tag, tag_encoding, tag_field, .. } => {
                        // Option<T>-like: one dataful variant with a single field, the other(s) payload-free
                        let tsz = tag.size(&tcx);
                        let toff = layout.fields.offset(tag_field.as_usize());
                        let v = read_uint(off + toff, tsz)?;
                        let vidx = match tag_encoding {
                            rustc_abi::TagEncoding::Direct => {
                                let mut found = None;
                                for (vi, d) in adt.discriminants(tcx) {
                                    if d.val == v {
                                        found = Some(vi);
                                    }
                                }
                                found?
                            }
                            rustc_abi::TagEncoding::Niche { untagged_variant, niche_variants, niche_start } => {
                                let mask = if tsz.bits() >= 128 { u128::MAX } else { (1u128 << tsz.bits()) - 1 };
                                let rel = v.wrapping_sub(*niche_start) & mask;
                                let lo = niche_variants.start().as_u32() as u128;
                                let hi = niche_variants.end().as_u32() as u128;
                                if rel <= hi - lo {
                                    rustc_abi::VariantIdx::from_u32((lo + rel) as u32)
                                } else {
                                    *untagged_variant
                                }
                            }
                        };
                        let var = adt.variant(vidx);
                        let mut fields: Vec<J> = Vec::new();
                        if var.fields.len() == 1 {
                            if let ty::Adt(_, args) = ty.kind() {
                                let fty = var.fields.iter().next().unwrap().ty(tcx, args);
                                // single-field dataful variant of an Option-like enum sits at offset 0
                                if let Some(fv) = self.decode(fty, alloc, off, depth) {
                                    fields.push(fv);
                                }
                            }
                        } else if !var.fields.is_empty() {
                            return Some(J::Obj(vec![("opaque", s(tystr(ty)))]));
                        }
                        Some(J::Obj(vec![
                            ("enum", s(tystr(ty))),
                            ("variant", s(var.name.to_string())),
                            ("vi", n(vidx.as_u32())),
                            ("payload", J::Arr(fields)),
                        ]))
                    }
                    _ => Some(J::Obj(vec![("opaque", s(tystr(ty)))])),
                }
            }
            ty::Ref(_, inner, _) | ty::RawPtr(inner, _) => {
                if inner.is_str() {
                    // wide pointer: (address, length)
                    let psz = tcx.data_layout.pointer_size();
                    let prov = a.provenance().ptrs().get(&off)?;
                    let addr = read_uint(off, psz)? as usize;
                    let len = read_uint(off + psz, psz)? as usize;
                    if let GlobalAlloc::Memory(target) = tcx.global_alloc(prov.alloc_id()) {
                        let ta = target.inner();
                        if addr + len <= ta.len() {
                            let bytes = ta.inspect_with_uninit_and_ptr_outside_interpreter(addr..addr + len);
                            return Some(J::Obj(vec![("strlit", s(String::from_utf8_lossy(bytes).to_string()))]));
                        }
                    }
                    return Some(J::Obj(vec![("opaque", s(tystr(ty)))]));
                }
                if let ty::Slice(elem) = inner.kind() {
                    // wide pointer to a constant slice: (address, length) -> the elements, like an array
                    let psz = tcx.data_layout.pointer_size();
                    let prov = a.provenance().ptrs().get(&off)?;
                    let addr = read_uint(off, psz)? as u64;
                    let len = read_uint(off + psz, psz)? as u64;
                    if len <= 4096 {
                        if let GlobalAlloc::Memory(target) = tcx.global_alloc(prov.alloc_id()) {
                            let el = tcx.layout_of(env.as_query_input(*elem)).ok()?;
                            let mut v = Vec::with_capacity(len as usize);
                            for i in 0..len {
                                v.push(self.decode(*elem, target, Size::from_bytes(addr) + el.size * i, depth)?);
                            }
                            return Some(J::Arr(v));
                        }
                    }
                    return Some(J::Obj(vec![("opaque", s(tystr(ty)))]));
                }
                if !inner.is_sized(tcx, env) {
                    return Some(J::Obj(vec![("opaque", s(tystr(ty)))]));
                }
                let prov = a.provenance().ptrs().get(&off)?;
                let addr = read_uint(off, tcx.data_layout.pointer_size())?;
                match tcx.global_alloc(prov.alloc_id()) {
                    GlobalAlloc::Memory(target) => self.decode(*inner, target, Size::from_bytes(addr as u64), depth),
                    _ => Some(J::Obj(vec![("opaque", s(tystr(ty)))])),
                }
            }
            _ => Some(J::Obj(vec![("opaque", s(tystr(ty)))])),
        }
    }

    fn place(&self, body: &Body<'tcx>, p: &Place<'tcx>) -> J {
        let tcx = self.tcx;
        let mut proj = Vec::new();
        for (i, elem) in p.projection.iter().enumerate() {
            let base_ty = Place::ty_from(p.local, &p.projection[..i], &body.local_decls, tcx);
            let j = match elem {
                ProjectionElem::Deref => s("deref"),
                ProjectionElem::Field(f, fty) => {
                    let name = match base_ty.ty.kind() {
                        ty::Adt(adt, _) => {
                            let vi = base_ty.variant_index.unwrap_or(rustc_abi::FIRST_VARIANT);
                            if adt.is_enum() || adt.is_struct() || adt.is_union() {
                                adt.variant(vi).fields[f].name.to_string()
                            } else {
                                format!("{}", f.as_usize())
                            }
                        }
                        _ => format!("{}", f.as_usize()),
                    };
                    J::Obj(vec![
                        ("f", n(f.as_usize())),
                        ("n", s(name)),
                        ("of", s(tystr(base_ty.ty))),
                        ("ty", s(tystr(fty))),
                    ])
                }
                ProjectionElem::Index(l) => J::Obj(vec![("idx", n(l.as_usize())), ("of", s(tystr(base_ty.ty)))]),
                ProjectionElem::ConstantIndex { offset, min_length, from_end } => J::Obj(vec![
                    ("cidx", n(offset)),
                    ("min", n(min_length)),
                    ("from_end", J::Bool(from_end)),
                ]),
                ProjectionElem::Subslice { from, to, from_end } => {
                    J::Obj(vec![("sub", J::Arr(vec![n(from), n(to)])), ("from_end", J::Bool(from_end))])
                }
                ProjectionElem::Downcast(name, vi) => J::Obj(vec![
                    ("dc", n(vi.as_usize())),
                    ("n", name.map(|x| s(x.to_string())).unwrap_or(J::Null)),
                    ("of", s(tystr(base_ty.ty))),
                ]),
                other => J::Obj(vec![("other", s(format!("{:?}", other)))]),
            };
            proj.push(j);
        }
        J::Obj(vec![("l", n(p.local.as_usize())), ("p", J::Arr(proj))])
    }

    fn operand(&self, env: TypingEnv<'tcx>, body: &Body<'tcx>, op: &Operand<'tcx>) -> J {
        match op {
            Operand::Copy(p) => J::Obj(vec![("k", s("copy")), ("pl", self.place(body, p))]),
            Operand::Move(p) => J::Obj(vec![("k", s("move")), ("pl", self.place(body, p))]),
            Operand::Constant(c) => self.konst(env, &c.const_, c.span),
            #[allow(unreachable_patterns)]
            other => J::Obj(vec![("k", s("otherop")), ("dbg", s(format!("{:?}", other)))]),
        }
    }

    fn rvalue(&self, env: TypingEnv<'tcx>, body: &Body<'tcx>, rv: &Rvalue<'tcx>) -> J {
        let tcx = self.tcx;
        match rv {
            Rvalue::Use(op, ..) => J::Obj(vec![("k", s("use")), ("op", self.operand(env, body, op))]),
            Rvalue::Repeat(op, ct) => J::Obj(vec![
                ("k", s("repeat")),
                ("op", self.operand(env, body, op)),
                ("count", s(format!("{}", ct))),
            ]),
            Rvalue::Ref(_, bk, p) => J::Obj(vec![
                ("k", s("ref")),
                ("mut", J::Bool(matches!(bk, BorrowKind::Mut { .. }))),
                ("pl", self.place(body, p)),
            ]),
            Rvalue::RawPtr(kind, p) => J::Obj(vec![
                ("k", s("rawptr")),
                ("mut", J::Bool(format!("{:?}", kind).contains("Mut"))),
                ("pl", self.place(body, p)),
            ]),
            Rvalue::Cast(kind, op, ty) => {
                let k = match kind {
                    CastKind::IntToInt => "int2int",
                    CastKind::Transmute => "transmute",
                    CastKind::PtrToPtr => "ptr2ptr",
                    CastKind::PointerCoercion(..) => "coerce",
                    _ => "othercast",
                };
                J::Obj(vec![
                    ("k", s("cast")),
                    ("ck", s(k)),
                    ("ckd", s(format!("{:?}", kind))),
                    ("op", self.operand(env, body, op)),
                    ("from", s(tystr(op.ty(&body.local_decls, tcx)))),
                    ("ty", s(tystr(*ty))),
                ])
            }
            Rvalue::BinaryOp(op, ab) => {
                let (a, b) = &**ab;
                let name = match op {
                    BinOp::Add => "Add",
                    BinOp::AddUnchecked => "AddUnchecked",
                    BinOp::AddWithOverflow => "AddWithOverflow",
                    BinOp::Sub => "Sub",
                    BinOp::SubUnchecked => "SubUnchecked",
                    BinOp::SubWithOverflow => "SubWithOverflow",
                    BinOp::Mul => "Mul",
                    BinOp::MulUnchecked => "MulUnchecked",
                    BinOp::MulWithOverflow => "MulWithOverflow",
                    BinOp::Div => "Div",
                    BinOp::Rem => "Rem",
                    BinOp::BitXor => "BitXor",
                    BinOp::BitAnd => "BitAnd",
                    BinOp::BitOr => "BitOr",
                    BinOp::Shl => "Shl",
                    BinOp::ShlUnchecked => "ShlUnchecked",
                    BinOp::Shr => "Shr",
                    BinOp::ShrUnchecked => "ShrUnchecked",
                    BinOp::Eq => "Eq",
                    BinOp::Lt => "Lt",
                    BinOp::Le => "Le",
                    BinOp::Ne => "Ne",
                    BinOp::Ge => "Ge",
                    BinOp::Gt => "Gt",
                    BinOp::Cmp => "Cmp",
                    BinOp::Offset => "Offset",
                };
                J::Obj(vec![
                    ("k", s("bin")),
                    ("op", s(name)),
                    ("a", self.operand(env, body, a)),
                    ("b", self.operand(env, body, b)),
                    ("aty", s(tystr(a.ty(&body.local_decls, tcx)))),
                ])
            }
            Rvalue::UnaryOp(op, a) => {
                let name = match op {
                    UnOp::Not => "Not",
                    UnOp::Neg => "Neg",
                    UnOp::PtrMetadata => "PtrMetadata",
                };
                J::Obj(vec![
                    ("k", s("un")),
                    ("op", s(name)),
                    ("a", self.operand(env, body, a)),
                    ("aty", s(tystr(a.ty(&body.local_decls, tcx)))),
                ])
            }
            Rvalue::Discriminant(p) => J::Obj(vec![
                ("k", s("discr")),
                ("pl", self.place(body, p)),
                ("of", s(tystr(p.ty(&body.local_decls, tcx).ty))),
            ]),
            Rvalue::Aggregate(kind, ops) => {
                let mut o = vec![("k", s("agg"))];
                match &**kind {
                    AggregateKind::Array(t) => {
                        o.push(("ak", s("array")));
                        o.push(("ty", s(tystr(*t))));
                    }
                    AggregateKind::Tuple => o.push(("ak", s("tuple"))),
                    AggregateKind::Adt(def_id, vi, args, _, _) => {
                        let adt = tcx.adt_def(*def_id);
                        o.push(("ak", s("adt")));
                        o.push(("adt", s(qpath(tcx, *def_id))));
                        o.push(("variant", s(adt.variant(*vi).name.to_string())));
                        o.push(("vi", n(vi.as_usize())));
                        o.push(("targs", self.generic_args(args)));
                        o.push((
                            "fields",
                            J::Arr(adt.variant(*vi).fields.iter().map(|f| s(f.name.to_string())).collect()),
                        ));
                    }
                    AggregateKind::Closure(def_id, _) => {
                        o.push(("ak", s("closure")));
                        o.push(("closure", s(qpath(tcx, *def_id))));
                    }
                    other => {
                        o.push(("ak", s("other")));
                        o.push(("dbg", s(format!("{:?}", other))));
                    }
                }
                o.push(("ops", J::Arr(ops.iter().map(|x| self.operand(env, body, x)).collect())));
                J::Obj(o)
            }
            Rvalue::CopyForDeref(p) => J::Obj(vec![
                ("k", s("use")),
                ("op", J::Obj(vec![("k", s("copy")), ("pl", self.place(body, p))])),
            ]),
            other => J::Obj(vec![("k", s("other")), ("dbg", s(format!("{:?}", other)))]),
        }
    }

    fn body(&self, owner: DefId, body: &Body<'tcx>, promoted: Option<usize>) -> J {
        let tcx = self.tcx;
        let env = TypingEnv::post_analysis(tcx, owner);
        let mut names: Vec<Option<String>> = vec![None; body.local_decls.len()];
        for vdi in &body.var_debug_info {
            if let VarDebugInfoContents::Place(p) = &vdi.value {
                if p.projection.is_empty() {
                    names[p.local.as_usize()] = Some(vdi.name.to_string());
                }
            }
        }
        let mut upvars = Vec::new();
        for vdi in &body.var_debug_info {
            if let VarDebugInfoContents::Place(p) = &vdi.value {
                if !p.projection.is_empty() {
                    upvars.push(J::Obj(vec![("name", s(vdi.name.to_string())), ("pl", self.place(body, p))]));
                }
            }
        }
        let locals: Vec<J> = body
            .local_decls
            .iter_enumerated()
            .map(|(l, d)| {
                J::Obj(vec![
                    ("ty", s(tystr(d.ty))),
                    ("name", names[l.as_usize()].clone().map(s).unwrap_or(J::Null)),
                    ("mut", J::Bool(d.mutability.is_mut())),
                ])
            })
            .collect();
        let mut blocks = Vec::new();
        for (_bb, data) in body.basic_blocks.iter_enumerated() {
            let mut stmts = Vec::new();
            for st in &data.statements {
                match &st.kind {
                    StatementKind::Assign(b) => {
                        let (pl, rv) = &**b;
                        stmts.push(J::Obj(vec![
                            ("k", s("assign")),
                            ("pl", self.place(body, pl)),
                            ("rv", self.rvalue(env, body, rv)),
                            ("sp", self.span(st.source_info.span)),
                        ]));
                    }
                    StatementKind::SetDiscriminant { place, variant_index } => {
                        stmts.push(J::Obj(vec![
                            ("k", s("setdiscr")),
                            ("pl", self.place(body, place)),
                            ("vi", n(variant_index.as_usize())),
                            ("sp", self.span(st.source_info.span)),
                        ]));
                    }
                    StatementKind::Intrinsic(i) => {
                        stmts.push(J::Obj(vec![("k", s("intrinsic")), ("dbg", s(format!("{:?}", i)))]));
                    }
                    _ => {}
                }
            }
            let term = data.terminator();
            let sp = self.span(term.source_info.span);
            let t = match &term.kind {
                TerminatorKind::Goto { target } => J::Obj(vec![("k", s("goto")), ("t", n(target.as_usize()))]),
                TerminatorKind::SwitchInt { discr, targets } => {
                    let arms: Vec<J> =
                        targets.iter().map(|(v, t)| J::Arr(vec![n(v), n(t.as_usize())])).collect();
                    J::Obj(vec![
                        ("k", s("switch")),
                        ("discr", self.operand(env, body, discr)),
                        ("dty", s(tystr(discr.ty(&body.local_decls, tcx)))),
                        ("arms", J::Arr(arms)),
                        ("otherwise", n(targets.otherwise().as_usize())),
                    ])
                }
                TerminatorKind::Return => J::Obj(vec![("k", s("return"))]),
                TerminatorKind::Unreachable => J::Obj(vec![("k", s("unreachable"))]),
                TerminatorKind::UnwindResume => J::Obj(vec![("k", s("resume"))]),
                TerminatorKind::UnwindTerminate(_) => J::Obj(vec![("k", s("terminate"))]),
                TerminatorKind::Drop { place, target, .. } => J::Obj(vec![
                    ("k", s("drop")),
                    ("pl", self.place(body, place)),
                    ("t", n(target.as_usize())),
                ]),
                TerminatorKind::Call { func, args, destination, target, .. } => {
                    let fty = func.ty(&body.local_decls, tcx);
                    let callee = match fty.kind() {
                        ty::FnDef(def_id, gargs) => self.fn_ref(env, *def_id, gargs),
                        _ => J::Obj(vec![("indirect", self.operand(env, body, func)), ("fty", s(tystr(fty)))]),
                    };
                    J::Obj(vec![
                        ("k", s("call")),
                        ("callee", callee),
                        ("args", J::Arr(args.iter().map(|a| self.operand(env, body, &a.node)).collect())),
                        ("dest", self.place(body, destination)),
                        ("t", target.map(|t| n(t.as_usize())).unwrap_or(J::Null)),
                    ])
                }
                TerminatorKind::TailCall { .. } => J::Obj(vec![("k", s("tailcall"))]),
                TerminatorKind::Assert { cond, expected, msg, target, .. } => {
                    let kind = {
                        let d = format!("{:?}", msg);
                        let head: String = d.chars().take_while(|c| c.is_alphanumeric()).collect();
                        head
                    };
                    J::Obj(vec![
                        ("k", s("assert")),
                        ("cond", self.operand(env, body, cond)),
                        ("expected", J::Bool(*expected)),
                        ("msg", s(kind)),
                        ("msgd", s(format!("{:?}", msg))),
                        ("t", n(target.as_usize())),
                    ])
                }
                other => J::Obj(vec![("k", s("otherterm")), ("dbg", s(format!("{:?}", other)))]),
            };
            let mut t = t;
            if let J::Obj(ref mut v) = t {
                v.push(("sp", sp));
            }
            blocks.push(J::Obj(vec![
                ("stmts", J::Arr(stmts)),
                ("term", t),
                ("cleanup", J::Bool(data.is_cleanup)),
            ]));
        }
        let kind = tcx.def_kind(owner);
        let is_const_fn = matches!(kind, DefKind::Fn | DefKind::AssocFn) && tcx.is_const_fn(owner);
        let vis = if matches!(kind, DefKind::Fn | DefKind::AssocFn | DefKind::Const { .. } | DefKind::AssocConst { .. } | DefKind::Static { .. }) {
            format!("{:?}", tcx.visibility(owner))
        } else {
            String::from("n/a")
        };
        let (impl_self, impl_trait) = match tcx.opt_parent(owner) {
            Some(p) if matches!(tcx.def_kind(p), DefKind::Impl { .. }) => {
                let st = tcx.type_of(p).instantiate_identity().skip_norm_wip();
                let tr = tcx
                    .impl_opt_trait_ref(p)
                    .map(|t| format!("{}", t.instantiate_identity().skip_norm_wip().print_only_trait_path()));
                (Some(tystr(st)), tr)
            }
            _ => (None, None),
        };
        let generics = tcx.generics_of(owner);
        let mut gnames = Vec::new();
        {
            let mut g = Some(generics);
            let mut stack = Vec::new();
            while let Some(gg) = g {
                stack.push(gg);
                g = gg.parent.map(|p| tcx.generics_of(p));
            }
            for gg in stack.iter().rev() {
                for p in &gg.own_params {
                    gnames.push(s(p.name.to_string()));
                }
            }
        }
        J::Obj(vec![
            ("path", s(qpath(tcx, owner))),
            ("name", s(tcx.opt_item_name(owner).map(|x| x.to_string()).unwrap_or_default())),
            ("kind", s(format!("{:?}", kind))),
            ("promoted", promoted.map(n).unwrap_or(J::Null)),
            ("vis", s(vis)),
            ("const_fn", J::Bool(is_const_fn)),
            ("impl_self", impl_self.map(s).unwrap_or(J::Null)),
            ("impl_trait", impl_trait.map(s).unwrap_or(J::Null)),
            ("generics", J::Arr(gnames)),
            ("argc", n(body.arg_count)),
            ("sp", self.span(body.span)),
            ("locals", J::Arr(locals)),
            ("upvars", J::Arr(upvars)),
            ("blocks", J::Arr(blocks)),
        ])
    }

    fn adts(&self) -> J {
        let tcx = self.tcx;
        let mut out = Vec::new();
        for ldid in tcx.hir_crate_items(()).definitions() {
            let did = ldid.to_def_id();
            let kind = tcx.def_kind(did);
            if !matches!(kind, DefKind::Struct | DefKind::Enum | DefKind::Union) {
                continue;
            }
            let adt = tcx.adt_def(did);
            let mut variants = Vec::new();
            for (vi, v) in adt.variants().iter_enumerated() {
                let discr = if adt.is_enum() {
                    n(adt.discriminant_for_variant(tcx, vi).val)
                } else {
                    J::Null
                };
                let fields: Vec<J> = v
                    .fields
                    .iter()
                    .map(|f| {
                        J::Obj(vec![
                            ("name", s(f.name.to_string())),
                            ("ty", s(tystr(tcx.type_of(f.did).instantiate_identity().skip_norm_wip()))),
                            ("vis", s(format!("{:?}", f.vis))),
                            ("pub", J::Bool(f.vis.is_public())),
                        ])
                    })
                    .collect();
                variants.push(J::Obj(vec![
                    ("name", s(v.name.to_string())),
                    ("discr", discr),
                    ("fields", J::Arr(fields)),
                ]));
            }
            out.push(J::Obj(vec![
                ("path", s(qpath(tcx, did))),
                ("kind", s(format!("{:?}", kind))),
                ("vis", s(format!("{:?}", tcx.visibility(did)))),
                ("pub", J::Bool(tcx.visibility(did).is_public())),
                ("variants", J::Arr(variants)),
                ("sp", self.span(tcx.def_span(did))),
            ]));
        }
        J::Arr(out)
    }

    fn impls(&self) -> J {
        let tcx = self.tcx;
        let mut out = Vec::new();
        for ldid in tcx.hir_crate_items(()).definitions() {
            let did = ldid.to_def_id();
            if let DefKind::Impl { .. } = tcx.def_kind(did) {
                let st = tcx.type_of(did).instantiate_identity().skip_norm_wip();
                let tr = tcx
                    .impl_opt_trait_ref(did)
                    .map(|t| format!("{}", t.instantiate_identity().skip_norm_wip().print_only_trait_path()));
                let items: Vec<J> = tcx
                    .associated_items(did)
                    .in_definition_order()
                    .map(|it| s(it.name().to_string()))
                    .collect();
                out.push(J::Obj(vec![
                    ("self", s(tystr(st))),
                    ("trait", tr.map(s).unwrap_or(J::Null)),
                    ("items", J::Arr(items)),
                    ("sp", self.span(tcx.def_span(did))),
                ]));
            }
        }
        J::Arr(out)
    }

    fn fns(&self) -> J {
        // every fn-like item with its visibility (including effective reachability)
        let tcx = self.tcx;
        let ev = tcx.effective_visibilities(());
        let mut out = Vec::new();
        for ldid in tcx.hir_crate_items(()).definitions() {
            let did = ldid.to_def_id();
            let kind = tcx.def_kind(did);
            if !matches!(kind, DefKind::Fn | DefKind::AssocFn) {
                continue;
            }
            let sig = tcx.fn_sig(did).instantiate_identity().skip_norm_wip().skip_binder();
            out.push(J::Obj(vec![
                ("path", s(qpath(tcx, did))),
                ("vis", s(format!("{:?}", tcx.visibility(did)))),
                ("pub", J::Bool(tcx.visibility(did).is_public())),
                ("reachable", J::Bool(ev.is_reachable(ldid))),
                ("exported", J::Bool(ev.is_exported(ldid))),
                ("inputs", J::Arr(sig.inputs().iter().map(|t| s(tystr(*t))).collect())),
                ("output", s(tystr(sig.output()))),
                ("sp", self.span(tcx.def_span(did))),
            ]));
        }
        J::Arr(out)
    }

    fn consts(&self) -> J {
        let tcx = self.tcx;
        let mut out = Vec::new();
        for ldid in tcx.hir_body_owners() {
            let did = ldid.to_def_id();
            let kind = tcx.def_kind(did);
            if !matches!(kind, DefKind::Const { .. } | DefKind::AssocConst { .. } | DefKind::Static { .. }) {
                continue;
            }
            if tcx.generics_of(did).requires_monomorphization(tcx) {
                continue;
            }
            let ty = tcx.type_of(did).instantiate_identity().skip_norm_wip();
            let mut o: Vec<(&'static str, J)> = vec![
                ("path", s(qpath(tcx, did))),
                ("ty", s(tystr(ty))),
                ("sp", self.span(tcx.def_span(did))),
            ];
            let r = if matches!(kind, DefKind::Static { .. }) {
                None
            } else {
                tcx.const_eval_poly(did).ok()
            };
            if let Some(cv) = r {
                self.const_value(&mut o, cv, ty, true);
            }
            out.push(J::Obj(o));
        }
        J::Arr(out)
    }

    fn bodies(&self) -> J {
        let tcx = self.tcx;
        let mut out = Vec::new();
        for ldid in tcx.hir_body_owners() {
            let did: DefId = ldid.to_def_id();
            let kind = tcx.def_kind(did);
            match kind {
                DefKind::Fn | DefKind::AssocFn | DefKind::Closure => {
                    let body = tcx.optimized_mir(did);
                    out.push(self.body(did, body, None));
                    self.promoteds(ldid, &mut out);
                }
                DefKind::Const { .. } | DefKind::AssocConst { .. } | DefKind::Static { .. } | DefKind::InlineConst => {
                    let body = tcx.mir_for_ctfe(did);
                    out.push(self.body(did, body, None));
                    self.promoteds(ldid, &mut out);
                }
                _ => {}
            }
        }
        J::Arr(out)
    }

    fn promoteds(&self, ldid: LocalDefId, out: &mut Vec<J>) {
        let tcx = self.tcx;
        let proms = tcx.promoted_mir(ldid.to_def_id());
        for (pi, pb) in proms.iter_enumerated() {
            out.push(self.body(ldid.to_def_id(), pb, Some(pi.as_usize())));
        }
    }
}

struct Cb;
impl Callbacks for Cb {
    fn after_analysis<'tcx>(&mut self, _c: &Compiler, tcx: TyCtxt<'tcx>) -> Compilation {
        let outdir = match std::env::var("MIRFACTS_OUT") {
            Ok(x) => x,
            Err(_) => return Compilation::Continue,
        };
        let krate = tcx.crate_name(rustc_hir::def_id::LOCAL_CRATE).to_string();
        let only = std::env::var("MIRFACTS_CRATES").unwrap_or_default();
        if !only.is_empty() && !only.split(',').any(|x| x == krate) {
            return Compilation::Continue;
        }
        let cx = Cx { tcx };
        let j = with_resolve_crate_name!(with_no_visible_paths!(with_no_trimmed_paths!({
            let feats: Vec<J> = tcx
                .sess
                .opts
                .cg
                .target_feature
                .split(',')
                .filter(|x| !x.is_empty())
                .map(|x| s(x.to_string()))
                .collect();
            let cfgs: Vec<J> = tcx
                .sess
                .config
                .iter()
                .filter_map(|(k, v)| {
                    if k.as_str() == "feature" {
                        v.map(|v| s(v.to_string()))
                    } else {
                        None
                    }
                })
                .collect();
            J::Obj(vec![
                ("crate", s(krate.clone())),
                ("overflow_checks", J::Bool(tcx.sess.overflow_checks())),
                ("debug_assertions", J::Bool(tcx.sess.opts.debug_assertions)),
                ("target_feature", J::Arr(feats)),
                ("features", J::Arr(cfgs)),
                ("is_host_build", J::Bool(tcx.sess.opts.target_triple.tuple() == "" )),
                ("crate_types", s(format!("{:?}", tcx.crate_types()))),
                ("adts", cx.adts()),
                ("impls", cx.impls()),
                ("fns", cx.fns()),
                ("consts", cx.consts()),
                ("bodies", cx.bodies()),
            ])
        })));
        let mut out = String::new();
        j.write(&mut out);
        let pid = std::process::id();
        let tmp = format!("{}/.{}-{}.tmp", outdir, krate, pid);
        let fin = format!("{}/{}-{}.json", outdir, krate, pid);
        std::fs::write(&tmp, out).expect("mirfacts: cannot write facts");
        std::fs::rename(&tmp, &fin).expect("mirfacts: cannot rename facts");
        Compilation::Continue
    }
}

fn main() {
    let mut args: Vec<String> = std::env::args().collect();
    // invoked as RUSTC_WORKSPACE_WRAPPER: argv[1] is the real rustc; drop it
    if args.len() > 1 && (args[1].ends_with("rustc") || args[1].contains("/rustc")) {
        args.remove(1);
    }
    run_compiler(&args, &mut Cb);
}
